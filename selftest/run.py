#!/usr/bin/env python3
"""Self-test of the checker: apply each mutant (a small source edit that keeps the
repository compiling) to a scratch copy of /repo, run the listed property checks on
the copy and require exit 1 + a VIOLATION line; apply each benign edit and require
exit 0. Nothing here is part of a verdict: it tests the checker, not the repository.

usage: run.py [-k substring] [--benign-only|--mutants-only] [--keep]
"""
import json, os, shutil, subprocess, sys, tempfile, glob

VERIF = os.path.dirname(os.path.dirname(os.path.abspath(__file__)))
REPO = os.environ.get("REPO", "/repo")
ENV = dict(os.environ, GOFLAGS="-mod=mod", GOPROXY="off", GOSUMDB="off", GOTOOLCHAIN="local", GOWORK="off")


def sh(cmd, cwd=None):
    p = subprocess.run(cmd, shell=True, cwd=cwd, env=ENV, stdout=subprocess.PIPE, stderr=subprocess.STDOUT, text=True)
    return p.returncode, p.stdout


def load_cases():
    cases = []
    for f in sorted(glob.glob(os.path.join(VERIF, "selftest", "cases", "*.json"))):
        for c in json.load(open(f)):
            c["_file"] = os.path.basename(f)
            cases.append(c)
    return cases


def apply_edits(root, edits):
    touched = []
    for e in edits:
        path = os.path.join(root, e["file"])
        s = open(path).read()
        if s.count(e["old"]) != 1:
            raise SystemExit("edit does not apply exactly once: %s in %s (count=%d)" % (e["old"][:60], e["file"], s.count(e["old"])))
        open(path, "w").write(s.replace(e["old"], e["new"]))
        touched.append(e["file"])
    return touched


def main():
    args = sys.argv[1:]
    key = None
    if "-k" in args:
        key = args[args.index("-k") + 1]
    only_b = "--benign-only" in args
    only_m = "--mutants-only" in args
    # every edit must apply to today's tree (sequentially per case), checked up front
    stale = 0
    for c in load_cases():
        files = {}
        for e in c["edits"]:
            f = files.get(e["file"])
            if f is None:
                f = open(os.path.join(REPO, e["file"])).read()
            if f.count(e["old"]) != 1:
                print("STALE %s: edit does not apply exactly once in %s (count=%d): %r" % (c["id"], e["file"], f.count(e["old"]), e["old"][:70]))
                stale += 1
                break
            files[e["file"]] = f.replace(e["old"], e["new"])
    if stale:
        print("selftest: %d stale cases" % stale)
        return 1
    if "--check-apply" in args:
        print("selftest: all %d cases apply" % len(load_cases()))
        return 0
    scratch = tempfile.mkdtemp(prefix="raft-mut-")
    vscratch = tempfile.mkdtemp(prefix="raft-mut-verif-")
    try:
        sh("rsync -a --exclude .git %s/ %s/" % (REPO, scratch))
        failures = 0
        ran = 0
        for c in load_cases():
            if key and key not in c["id"]:
                continue
            benign = c.get("benign", False)
            if only_b and not benign or only_m and benign:
                continue
            ran += 1
            touched = apply_edits(scratch, c["edits"])
            try:
                rc, out = sh("go build ./... && go vet -vettool=/bin/true . 2>/dev/null; go build ./...", cwd=scratch)
                if rc != 0:
                    print("FAIL %-40s does not compile:\n%s" % (c["id"], out[-600:]))
                    failures += 1
                    continue
                for prop in c["props"]:
                    rc, out = sh("%s -prop %s -repo %s -verif %s" % (os.environ.get("RAFTCHECK", VERIF + "/bin/raftcheck"), prop, scratch, vscratch))
                    viol = [l for l in out.splitlines() if l.startswith("VIOLATION")]
                    if benign:
                        ok = rc == 0 and not viol
                    else:
                        ok = rc == 1 and viol
                        if ok and c.get("expect"):
                            ok = any(c["expect"] in l for l in out.splitlines())
                    status = "ok  " if ok else "FAIL"
                    if not ok:
                        failures += 1
                    kind = "benign" if benign else "mutant"
                    print("%s %-6s %-44s %s rc=%d violations=%d" % (status, kind, c["id"], prop, rc, len(viol)))
                    if not ok or "-v" in args:
                        print("\n".join("      " + l[:300] for l in out.splitlines()[-8:]))
            finally:
                for f in touched:
                    shutil.copy(os.path.join(REPO, f), os.path.join(scratch, f))
        print("selftest: %d cases run, %d failures" % (ran, failures))
        return 1 if failures else 0
    finally:
        if "--keep" not in args:
            shutil.rmtree(scratch, ignore_errors=True)
            shutil.rmtree(vscratch, ignore_errors=True)
            sh("go clean -cache >/dev/null 2>&1 || true") if False else None


if __name__ == "__main__":
    sys.exit(main())
